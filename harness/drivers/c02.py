"""C02 — convert() succeeds iff the target is derivable, in the right mode, with the reported graph.

Spec: spec/conv/ConvertGraphDefs.tla (rule tables transcribed from the documentation, mode deduction,
graph selection, declarative least fixed point / computed set / provenance), ConvertGraph.tla (the
documented depth-first walk of transform_coords as a state machine), Emit_ConvertGraph.tla (M1 case
emitter), Trace_ConvertGraph.tla (judge of recorded executions).

1. TLC, exhaustive: over the configuration space (thorough: 4 origins x 21 targets x scatter x all
   2^11 subsets, plus the auxiliary inputs for the hkl / time_at_sample targets = 430 080
   configurations; quick: the 2^9 subsets containing all three positions or none) the walk
   answers exactly when the target is in the least fixed point of the selected graph
   (Sound / Complete), never recomputes a supplied coordinate (Precedence), never produces a
   quantity of the wrong scattering mode (NoWrongMode), walks the graph that is reported
   (GraphReportedIsUsed), and computes exactly the declarative provenance (WalkIsDeclarative).
   Eight negative controls (one wrong variant each) must be rejected.
2. spec -> code (M1): TLC emits every configuration (thorough) or a stratified sample (quick: one
   residue class of masks per head + the masks 0, 7, 2047) with the expected mode, graph, outcome
   and the provenance tree (node -> kernel).
3. code -> spec (M2): for every emitted configuration the driver builds a DataArray and a Dataset
   with random, mutually inconsistent supplied coordinates, calls deduce_conversion_graph and
   convert, and records: outcome class, the set of coordinates added, the reported graph (keys,
   kernel names, kernel inputs), whether the reported graph is a private copy, whether supplied
   coordinates came back unchanged, and a value flag.  The value flag is computed by evaluating the
   spec's provenance tree with independent numpy float64 reference formulas (harness/lib_convert.py,
   constants from refmap) on the supplied values; tolerance 1e-9 relative (norm-wise for vectors).
   TLC cannot evaluate sqrt / sin, so this numeric comparison is done here and its boolean goes
   into the event; that the tree used is the spec's tree is re-checked by TLC ("provenance_echo").
   Also recorded: conversion_graph for all (origin, target, scatter, mode) and the graph
   factories.  Trace_ConvertGraph judges every event.
"""

from __future__ import annotations

import json
import multiprocessing as mp
import os
import threading
import time

from ..core import MachineryError
from ..tlc import require_actions, require_ok, write_ndjson
from .. import lib_convert as L

RULE = ('configuration = (origin, target, scatter, 11-bit mask of supplied geometry/energy coordinates, '
        'aux inputs present) with target != origin; supplied values are independent random numbers '
        '(lengths 0.5..14 m, tof 1e4..5e4 us, E 20..100 meV, two_theta 0.2..2.9 rad) so that every '
        'alternative derivation gives a different value; non-trivial = the target is derivable and at '
        'least one coordinate has to be computed')

NEG = ['recompute:Precedence', 'swap_modes:OutcomeIsDeclarative', 'both_energies_direct:NoWrongMode',
       'elastic_energy_with_inelastic:NoWrongMode', 'noscatter_ignored:NoWrongMode',
       'used_full_graph:GraphReportedIsUsed', 'first_input_only:Sound', 'ignore_supplied_target:Complete']

TARGETS = ('incident_beam', 'scattered_beam', 'L1', 'L2', 'two_theta', 'Ltotal', 'hkl_vec', 'h', 'k',
           'l', 'ub_matrix', 'time_at_sample', 'dspacing', 'energy', 'wavelength', 'Q', 'Q_vec', 'Qx',
           'Qy', 'Qz', 'energy_transfer')
MODES = ('elastic', 'direct_inelastic', 'indirect_inelastic')


def _tlc_workers():
    try:
        return max(1, int(os.environ.get('VERIF_TLC_WORKERS', '16')))
    except ValueError:
        return 16


def _nproc():
    try:
        n = int(os.environ.get('VERIF_PROCS', '16'))
    except ValueError:
        n = 16
    return max(1, min(n, os.cpu_count() or 1))


class _Intern:
    """interning table for the trace: value -> id, with the 'def' events in creation order"""

    def __init__(self):
        self.ids = {}
        self.defs = []

    def get(self, kind, val):
        key = (kind, val)
        i = self.ids.get(key)
        if i is None:
            i = len(self.ids) + 1
            self.ids[key] = i
            if kind == 'graph':
                jv = [[list(o), k, list(ins)] for o, k, ins in val]
            elif kind == 'pairs':
                jv = [list(p) for p in val]
            else:
                jv = list(val)
            self.defs.append({'ev': 'def', 'tid': 0, 'id': i, 'kind': kind, 'val': jv})
        return i


def _out_class(s):
    return s if s in ('ok', 'RuntimeError') else 'other'


def _static_events(ctx, tab):
    """graph factories and conversion_graph over all argument combinations"""
    import scippneutron as scn
    from scippneutron.conversion import graph as G

    evs = []
    factories = {
        'beamline(scatter=True)': lambda: G.beamline.beamline(scatter=True),
        'beamline(scatter=False)': lambda: G.beamline.beamline(scatter=False),
        'elastic(tof)': lambda: G.tof.elastic('tof'),
        'elastic(wavelength)': lambda: G.tof.elastic('wavelength'),
        'elastic(energy)': lambda: G.tof.elastic('energy'),
        'elastic(Q)': lambda: G.tof.elastic('Q'),
        'kinematic(tof)': lambda: G.tof.kinematic('tof'),
        'direct_inelastic(tof)': lambda: G.tof.direct_inelastic('tof'),
        'indirect_inelastic(tof)': lambda: G.tof.indirect_inelastic('tof'),
    }
    for name, f in factories.items():
        try:
            gid = tab.get('graph', L.describe_graph(f()))
        except Exception as e:  # noqa: BLE001
            gid = -2
            ctx.extra.setdefault('exceptions', []).append(f'{name}: {e!r}'[:200])
        evs.append({'ev': 'factory', 'tid': 0, 'name': name, 'g': gid})
    for o in L.ORIGINS:
        for t in TARGETS:
            if t == o:
                continue
            for s in (True, False):
                for mode in MODES:
                    try:
                        g = scn.conversion_graph(o, t, s, mode)
                        desc = L.describe_graph(g)
                        g.clear()  # must not reach the module-level tables
                        if L.describe_graph(scn.conversion_graph(o, t, s, mode)) != desc:
                            ctx.violation('conversion_graph: mutating the returned graph changes later results',
                                          {'o': o, 't': t, 's': s, 'mode': mode})
                        gid = tab.get('graph', desc)
                    except Exception as e:  # noqa: BLE001
                        gid = -2
                        ctx.extra.setdefault('exceptions', []).append(f'conversion_graph{(o, t, s, mode)}: {e!r}'[:200])
                    evs.append({'ev': 'cgraph', 'tid': 0, 'o': o, 't': t, 's': s, 'mode': mode, 'g': gid})
    return evs


def _emit_cases(ctx):
    out = ctx.tmp / 'c02-cases.ndjson'
    cfg = ctx.tmp / 'Emit_ConvertGraph.cfg'
    stride = 1 if ctx.thorough else 71
    phase = ctx.seed % stride
    cfg.write_text(f'SPECIFICATION ESpec\nCONSTANTS\n  Stride = {stride}\n  Phase = {phase}\n')
    res = ctx.tlc('conv/Emit_ConvertGraph.tla', str(cfg), workers=1, env={'OUT_FILE': str(out)},
                  timeout=900, count=False)
    require_ok(ctx, res, 'Emit_ConvertGraph')
    em = res.tagged('EMITTED')
    cases = [json.loads(line) for line in open(out)]
    if not em or em[0][1] != len(cases) or not cases:
        raise MachineryError(f'case emission incomplete: {em} vs {len(cases)} records')
    if ctx.thorough and len(cases) != 430080:
        raise MachineryError(f'expected the complete space of 430080 configurations, got {len(cases)}')
    out.unlink()
    return cases


def _run_negs(ctx):
    """negative controls, a few at a time (each is a small TLC run that must fail)"""
    errs = []

    def one(i, name):
        time.sleep(0.15 * (i + 1))  # distinct metadir names
        try:
            r = ctx.tlc('conv/MC_ConvertGraph.tla', f'Neg_ConvertGraph_{name}.cfg', workers=2,
                        expect_error=True, timeout=600)
            want = dict(n.split(':') for n in NEG)[name]
            if want not in r.error:
                errs.append(f'negative control {name}: expected {want} to be violated, got: {r.error}')
        except Exception as e:  # noqa: BLE001
            errs.append(f'{name}: {e}')

    threads = [threading.Thread(target=one, args=(i, n.split(':')[0])) for i, n in enumerate(NEG)]
    for t in threads:
        t.start()
    for t in threads:
        t.join()
    if errs:
        raise MachineryError('; '.join(errs))


def _key(c, clause):
    aux = ', aux inputs present' if c['x'] else ''
    return f"convert({c['o']} -> {c['t']}, scatter={c['s']}{aux}): {clause}"


def run(ctx):
    from ..refmap import check_constants

    check_constants()
    ctx.rule = RULE
    ctx.assume('the documented no-scatter / inelastic graphs start from tof only (kinematic, direct_inelastic, '
               'indirect_inelastic: "only tof is supported"), so for other origins those targets are not '
               'derivable and RuntimeError is the expected outcome')
    ctx.assume('only the exception class is compared (RuntimeError vs anything else); where the mode is '
               'ambiguous but the target is a pure geometry node, answering from the beamline graph is '
               'accepted as well as refusing (DESIGN 3.4)')
    ctx.assume('value flag: numpy float64 reference formulas, 1e-9 relative (norm-wise for vectors and '
               'matrices); rounding-level agreement of the kernels is decided by C01/C03/C05')
    ctx.assume('containers: DataArray and Dataset with two items; pulse_time is a float64 time in us')

    # ---- 1. design: TLC exhaustive + negative controls (concurrently with the emission)
    cfg = 'MC_ConvertGraph_thorough.cfg' if ctx.thorough else 'MC_ConvertGraph.cfg'
    neg_err = []

    def negs():
        try:
            _run_negs(ctx)
        except Exception as e:  # noqa: BLE001
            neg_err.append(e)

    res = ctx.tlc('conv/MC_ConvertGraph.tla', cfg, timeout=1500, coverage=False, workers=_tlc_workers())
    require_ok(ctx, res, 'ConvertGraph model')
    ctx.exhaustive = bool(ctx.thorough)
    negt = threading.Thread(target=negs)
    negt.start()

    # ---- 2. M1: TLC-emitted cases
    cases = _emit_cases(ctx)
    negt.join()
    if neg_err:
        raise neg_err[0] if isinstance(neg_err[0], MachineryError) else MachineryError(str(neg_err[0]))

    # ---- 3. M2: run the real API (multiprocessing), record, let TLC judge
    nproc = _nproc() if len(cases) > 500 else 1
    chunk = 400
    jobs = [(cases[i:i + chunk], ctx.seed) for i in range(0, len(cases), chunk)]
    t0 = time.time()
    if nproc > 1:
        with mp.get_context('spawn').Pool(nproc) as pool:
            results = [r for part in pool.imap(L.run_cases, jobs, chunksize=1) for r in part]
    else:
        results = [r for j in jobs for r in L.run_cases(j)]
    ctx.extra['convert_wall_s'] = round(time.time() - t0, 1)
    if len(results) != len(cases):
        raise MachineryError('lost results')

    tab = _Intern()
    static = _static_events(ctx, tab)
    events = []
    details = []
    worst = 0.0
    nontriv = 0
    for tid, (c, r) in enumerate(zip(cases, results), start=1):
        if 'harness_error' in r:
            raise MachineryError(f'harness error on {r["c"]}: {r["harness_error"]}')
        ev = {'ev': 'convert', 'tid': tid, 'o': c['o'], 't': c['t'], 's': c['s'], 'm': c['m'], 'x': c['x'],
              'pv': tab.get('pairs', r['prov']),
              'g': tab.get('graph', r['graph']) if r['dg'] == 'ok' else (-1 if r['dg'] == 'RuntimeError' else -2),
              'copy': bool(r['copy'])}
        for k in ('da', 'ds'):
            ob = r[k]
            ev[k] = {'out': _out_class(ob['out']), 'add': tab.get('names', ob['added']),
                     'val': bool(ob['val']), 'same': bool(ob['same']), 'has': bool(ob['has'])}
            if ob['out'] == 'ok':
                worst = max(worst, ob['worst'])
        events.append(ev)
        details.append(r)
        nt = c['outcome'] == 'ok' and isinstance(c['prov'], dict) and len(c['prov']) > 0
        nontriv += nt
        ctx.case(nontrivial_id=(c['o'], c['t'], c['s'], c['m'], c['x']) if nt else None, n=2)
    ctx.extra['worst_relative_error_of_accepted_values'] = worst
    ctx.extra['configurations'] = len(cases)
    ctx.extra['distinct_reported_graphs'] = sum(1 for k in tab.ids if k[0] == 'graph')
    ctx.extra['outcomes_expected'] = {o: sum(1 for c in cases if c['outcome'] == o)
                                      for o in ('ok', 'missing', 'mode_error')}
    for e in (events[0], events[len(events) // 2], events[-1]):
        ctx.sample(e)

    # trace files: every chunk starts with all definitions; chunks are validated concurrently
    per = 60000
    parts = [events[i:i + per] for i in range(0, len(events), per)] or [[]]
    parts[0] = static + parts[0]
    verdicts = [None] * len(parts)
    counts = [(0, 0)] * len(parts)
    errs = []

    def validate(i):
        time.sleep(0.15 * i)
        try:
            tf = ctx.tmp / f'c02-{i}.ndjson'
            write_ndjson(tf, tab.defs + parts[i])
            tr = ctx.tlc('conv/Trace_ConvertGraph.tla', workers=1, env={'TRACE_FILE': str(tf)}, timeout=3000,
                         count=False)
            require_ok(ctx, tr, 'Trace_ConvertGraph')
            counts[i] = (tr.generated, tr.distinct)
            done = tr.tagged('DONE')
            if not done or done[0][1] != len(tab.defs) + len(parts[i]):
                raise MachineryError(f'trace validation incomplete: {done} vs {len(tab.defs) + len(parts[i])}')
            verdicts[i] = tr.tagged('REJECT')
            tf.unlink()
        except Exception as e:  # noqa: BLE001
            errs.append(e)

    sem = threading.Semaphore(min(_nproc(), 8))

    def guarded(i):
        with sem:
            validate(i)

    threads = [threading.Thread(target=guarded, args=(i,)) for i in range(len(parts))]
    for t in threads:
        t.start()
    for t in threads:
        t.join()
    if errs:
        raise errs[0] if isinstance(errs[0], MachineryError) else MachineryError(repr(errs[0]))
    for gen, dist in counts:  # accumulated here, not in the threads
        ctx.states += gen
        ctx.distinct_states += dist
        ctx.transitions += max(gen - 1, 0)
    ctx.traces(len(events) + len(static))

    ndefs = len(tab.defs)
    for i, rejects in enumerate(verdicts):
        for _, line, tid, clause in rejects:
            ev = (tab.defs + parts[i])[line - 1]
            if ev['ev'] == 'convert':
                r = details[tid - 1]
                c = r['c']
                ctx.violation(_key(c, clause), {
                    'configuration': c, 'supplied': L.supplied(c['m']), 'expected': cases[tid - 1],
                    'clause': clause, 'deduce_conversion_graph': r['dg'], 'reported_graph': r['graph'],
                    'DataArray': r['da'], 'Dataset': r['ds'], 'seed': ctx.seed,
                    'reproduce': 'harness.lib_convert.run_case(expected, seed)'})
            elif ev['ev'] == 'cgraph':
                ctx.violation(f"conversion_graph({ev['o']}, {ev['t']}, scatter={ev['s']}, {ev['mode']}): {clause}",
                              {'event': ev, 'graph': next((k[1] for k, v in tab.ids.items() if v == ev['g']), None)})
            elif ev['ev'] == 'factory':
                ctx.violation(f"graph factory {ev['name']}: {clause}",
                              {'event': ev, 'graph': next((k[1] for k, v in tab.ids.items() if v == ev['g']), None)})
            else:
                raise MachineryError(f'definition event rejected: {ev} {clause} ({ndefs} defs)')
    if nontriv == 0:
        raise MachineryError('vacuous run: no derivable configuration with computed coordinates')


META = {
    'design_ref': 'DESIGN.md §5 C02',
    'technique': 'TLA+ state machine of the documented transform_coords walk (mode deduction -> graph selection '
                 '-> found/descend/compute/fail) model-checked by TLC against the declarative least fixed point; '
                 'TLC-emitted configurations replayed into convert(); recorded executions judged by a TLC trace spec',
    'text': 'TLC proves on the model, for the complete configuration space (4 origins x 21 targets x scatter x 2^11 '
            'coordinate subsets), that the walk answers iff the target is derivable in the selected graph, never '
            'recomputes a supplied coordinate, never mixes scattering modes and walks the reported graph. The same '
            'space (thorough) or a stratified sample (quick) is emitted by TLC with the expected outcome and '
            'provenance tree; the real convert / deduce_conversion_graph / conversion_graph are run on DataArrays and '
            'Datasets with mutually inconsistent random coordinates, and TLC judges outcome class, set of added '
            'coordinates, reported graph (keys, kernels, inputs), precedence and the value flag for every call.',
    'note': 'Trusted: TLC, scipp transform_coords, numpy; the value flag (1e-9 relative against independent float64 '
            'formulas evaluated along the spec provenance) is computed by the harness, TLC checks that the tree used '
            'is the spec tree. Only the exception class is compared. The rule tables in ConvertGraphDefs.tla are '
            'transcribed from the documentation and compared with the real graph factories on every run.',
}
