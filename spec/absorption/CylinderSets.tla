---------------------------- MODULE CylinderSets ----------------------------
(* Finite sets of cylinders, probe points, motions and rays used by the exhaustive model      *)
(* (MC_Cylinder) and by the case export (Cases_Cylinder).  A cfg file cannot express tuples    *)
(* or negative numbers, hence a module.                                                        *)
EXTENDS CylinderDefs

(* quaternion -> axis R(q) e_z:                                                              *)
(*  <<1,0,0,0>> +z   <<0,1,0,0>> -z   <<1,1,0,0>> -y   <<1,-1,0,0>> +y   <<1,0,1,0>> +x       *)
(*  <<1,0,-1,0>> -x  <<2,1,0,0>> (0,-4,3)/5   <<1,2,0,0>> (0,-4,-3)/5   <<1,1,1,0>> (2,-2,-1)/3 *)
(*  <<2,1,1,0>> (2,-2,1)/3   <<1,2,1,0>> (1,-2,-2)/3   <<3,1,1,1>> (2,-1,2)/3                  *)
(*  <<2,1,1,1>> (6,-2,3)/7   <<1,2,1,1>> (6,-2,-3)/7   <<1,1,2,1>> (6,2,-3)/7                  *)
MC_AxisQuatsQuick == { <<1,0,0,0>>, <<0,1,0,0>>, <<1,1,0,0>>, <<1,0,-1,0>>,
                       <<2,1,0,0>>, <<1,2,0,0>>, <<1,1,1,0>>, <<2,1,1,0>> }
MC_AxisQuatsThorough == MC_AxisQuatsQuick \cup
                     { <<1,-1,0,0>>, <<1,0,1,0>>, <<1,2,1,0>>, <<3,1,1,1>>,
                       <<2,1,1,1>>, <<1,2,1,1>>, <<1,1,2,1>> }

(* the motion model composes the axis rotation with a skew rotation: denominators multiply, so   *)
(* the axes over 7 stay out of it (TLC integers are 32-bit; TLC reports overflow, it does not wrap) *)
MC_AxisQuatsMotionThorough == MC_AxisQuatsThorough \ { <<2,1,1,1>>, <<1,2,1,1>>, <<1,1,2,1>> }
MC_Bases == { <<0,0,0,1>>, <<1,-1,0,1>> }
MC_OneBase == { <<1,-1,0,1>> }
MC_OnePoint == { <<0,0,0,1>> }
MC_Empty == {}
MC_Points == { <<x, y, z, 2>> : x \in {-5,0,1,4}, y \in {-4,-1,0,3}, z \in {-5,-3,0,2,5} }
MC_PointsThorough == { <<x, y, z, 2>> : x \in {-5,-3,-2,0,1,4}, y \in {-4,-2,-1,0,3,5}, z \in {-5,-3,-1,0,2,5} }
MC_CubeQuats == { <<1,1,0,0>>, <<1,0,1,0>> }               \* quarter turns about x and y generate the cube group
MC_SkewQuats == { <<1,1,1,0>>, <<2,1,0,0>> }               \* matrices over 3 and over 5
MC_Shifts == { <<1,-2,3,1>>, <<-1,0,1,2>> }

Small == {-3, -1, 0, 1, 2}
MC_StartsQuick == { <<x, y, z, 1>> : x \in {-3, 0, 1}, y \in {-1, 0, 2}, z \in {-3, -1, 0, 1, 2} }
MC_StartsThorough == { <<x, y, z, 1>> : x \in Small, y \in Small, z \in Small }
UnitDirs(S) == { <<x, y, z, n>> \in {<<x, y, z, n>> : x \in -7..7, y \in -7..7, z \in -7..7, n \in S} :
                   /\ Abs(x) <= n /\ Abs(y) <= n /\ Abs(z) <= n
                   /\ Sq(x) + Sq(y) + Sq(z) = Sq(n)
                   /\ Gcd(Gcd(x, y), Gcd(z, n)) = 1 }
MC_DirsQuick == UnitDirs({1, 3}) \cup { <<0,-4,3,5>>, <<0,-4,-3,5>>, <<0,4,3,5>>, <<3,4,0,5>>, <<-4,0,3,5>> }
MC_DirsThorough == UnitDirs({1, 3, 5, 7})
=============================================================================
