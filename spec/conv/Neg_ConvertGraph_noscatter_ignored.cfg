SPECIFICATION Spec
CONSTANTS
  Heads <- AllHeads
  Masks <- MC_NegMasks
  Bug = "noscatter_ignored"
INVARIANT NoWrongMode
