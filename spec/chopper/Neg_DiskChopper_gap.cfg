SPECIFICATION Spec
CONSTANTS
  K = 12
  MaxSlits = 2
  BeamPos = {5}
  Phases <- MC_PhasesQ
  Ratios <- MC_RatiosQ
  MinPulses = 1
  MaxPulses = 3
  MaxTurns = 12
  Again = FALSE
  Pick = 0
  Bug = "gap"
INVARIANT TypeOK
INVARIANT RejectedIffOverlap
INVARIANT ValidationIgnoresListingOrder
INVARIANT RefusedIffOutOfPhase
INVARIANT OpenBeforeClose
INVARIANT MaximalOpen
INVARIANT OncePerRotation
INVARIANT NoneMissing
INVARIANT DurationIsWidth
INVARIANT ExpandOnePulse
CHECK_DEADLOCK FALSE
