SPECIFICATION Spec
CONSTANTS
  Pulses <- MC_Pulses
  Choppers <- MC_ChoppersQ
  PropDists = {4, 8}
  MaxChops = 2
  Pick = 0
  SimEdges = {}
  SimMaxDist = 0
  L = 12
  Bug = "absdelta"
INVARIANT TwoStepEqualsOneStep
INVARIANT SplitPropagation
CHECK_DEADLOCK FALSE
