----------------------------- MODULE CifDocDefs -----------------------------
(* From tokens to the abstract CIF document, a reference writer, the comparison of a   *)
(* parsed document with the document that was supplied, and the content assembled by   *)
(* the high-level builder (scippneutron.io.cif.CIF) as documented.                      *)
(*                                                                                      *)
(* Abstract document = sequence of blocks [name, items]; an item is                     *)
(*   [k |-> "pair", tags |-> <<tag>>,    vals |-> <<v>>]                                *)
(*   [k |-> "loop", tags |-> <<t1..tn>>, vals |-> <<row1col1, row1col2, ..>>]  row-major *)
(* Tags are stored without '_'.  In a parsed document values are code-point sequences;  *)
(* in a supplied ("expected") document a value is a cell [t, s, ok]:                    *)
(*   t = "s" string: equal up to surrounding blanks          (s = the supplied string)  *)
(*   t = "n" number: the harness read the token s, compared it numerically with the     *)
(*           supplied number (printed precision, see driver) and reports ok; TLC checks *)
(*           that the token in this position is exactly s                               *)
(*   t = "x" exactly one value token, content not prescribed (dates, escaped non-ASCII; *)
(*           ok = harness side condition, e.g. ASCII parts preserved; s = the supplied  *)
(*           string with every non-ASCII character replaced by '?', used only to see    *)
(*           whether it contains LF + ';')                                              *)
(*   t = "m" missing value of an optional field: '' or ? or .                           *)
(*   t = "i" symbolic id: s = <<k>>; cells with equal k must hold equal tokens, cells   *)
(*           with different k different tokens                                          *)
EXTENDS CifLexerDefs, CifDocTags

MinOf(S) == CHOOSE i \in S : \A j \in S : i <= j
Min2(a, b) == IF a <= b THEN a ELSE b

-----------------------------------------------------------------------------
(* Parser: <DataBlock> = data_name { tag value | loop_ tag+ value+ }*                  *)
P0 == [blocks |-> <<>>, st |-> "start", tags |-> <<>>, vals |-> <<>>, e |-> ""]
PErr(ps, m) == IF ps.e = "" THEN [ps EXCEPT !.e = m] ELSE ps
AddItem(ps, it) == [ps EXCEPT !.blocks[Len(ps.blocks)].items = Append(@, it)]

CloseLoop(ps) ==
    LET ps1 == AddItem(ps, [k |-> "loop", tags |-> ps.tags, vals |-> ps.vals])
        ps2 == [ps1 EXCEPT !.st = "block", !.tags = <<>>, !.vals = <<>>]
    IN IF Len(ps.vals) % Len(ps.tags) # 0 THEN PErr(ps2, "loop_values_not_a_multiple_of_tags")
       ELSE ps2

(* a token arriving between items *)
BlockStep(ps, tok) ==
    CASE tok.k = "data" ->
           [ps EXCEPT !.blocks = Append(@, [name |-> tok.s, items |-> <<>>]), !.st = "block"]
      [] tok.k = "tag"  -> [ps EXCEPT !.st = "tagged", !.tags = <<tok.s>>]
      [] tok.k = "loop" -> [ps EXCEPT !.st = "lhead", !.tags = <<>>, !.vals = <<>>]
      [] tok.k = "val"  -> PErr(ps, "value_without_tag")
      [] OTHER          -> PErr(ps, "reserved_word_save_stop_or_global")

PStep(ps, tok) ==
    CASE ps.st = "start" ->
           IF tok.k = "data" THEN BlockStep(ps, tok)
           ELSE BlockStep(PErr([ps EXCEPT !.blocks = <<[name |-> <<>>, items |-> <<>>]>>,
                                          !.st = "block"], "content_before_data_block"), tok)
      [] ps.st = "block" -> BlockStep(ps, tok)
      [] ps.st = "tagged" ->
           IF tok.k = "val"
           THEN [AddItem(ps, [k |-> "pair", tags |-> ps.tags, vals |-> <<tok.s>>])
                   EXCEPT !.st = "block", !.tags = <<>>]
           ELSE BlockStep(PErr([ps EXCEPT !.st = "block"], "tag_without_value"), tok)
      [] ps.st = "lhead" ->
           IF tok.k = "tag" THEN [ps EXCEPT !.tags = Append(@, tok.s)]
           ELSE IF tok.k = "val" /\ ps.tags # <<>> THEN [ps EXCEPT !.st = "lbody", !.vals = <<tok.s>>]
           ELSE BlockStep(PErr([ps EXCEPT !.st = "block"], "loop_without_tags_or_values"), tok)
      [] ps.st = "lbody" ->
           IF tok.k = "val" THEN [ps EXCEPT !.vals = Append(@, tok.s)]
           ELSE BlockStep(CloseLoop(ps), tok)

(* Uniqueness of data names within a block / of block names is a semantic rule of CIF,  *)
(* not part of the syntax; it is not demanded here (calling e.g. with_beamline twice    *)
(* repeats data names by construction).                                                 *)
PFinish(ps) ==
    CASE ps.st = "tagged" -> PErr(ps, "tag_without_value")
      [] ps.st = "lhead"  -> PErr(ps, "loop_without_tags_or_values")
      [] ps.st = "lbody"  -> CloseLoop(ps)
      [] OTHER -> ps

Parse(tokens) == LET p == PFinish(FoldLeft(PStep, P0, tokens)) IN [blocks |-> p.blocks, e |-> p.e]

(* [blocks, le (lexical error), pe (parse error)] *)
Read(text) == LET lx == Lex(text)  p == Parse(lx.t) IN [blocks |-> p.blocks, le |-> lx.e, pe |-> p.e]

-----------------------------------------------------------------------------
(* Reference writer (every value on a line of its own, quoted by SafeQuote).           *)
WriteVal(v) == SafeQuote(v).txt \o <<LF>>
WriteItem(it) ==
    IF it.k = "pair" THEN <<US>> \o it.tags[1] \o <<LF>> \o WriteVal(it.vals[1])
    ELSE KwLoop \o <<LF>>
         \o FlattenSeq([q \in 1..Len(it.tags) |-> <<US>> \o it.tags[q] \o <<LF>>])
         \o FlattenSeq([c \in 1..Len(it.vals) |-> WriteVal(it.vals[c])])
WriteBlock(b) == KwData \o b.name \o <<LF>> \o FlattenSeq([j \in 1..Len(b.items) |-> WriteItem(b.items[j])])
WriteDoc(blocks) == FlattenSeq([b \in 1..Len(blocks) |-> WriteBlock(blocks[b])])

-----------------------------------------------------------------------------
(* Comparison of the supplied document (cells) with a parsed one (code points).        *)
Missing == {<<>>, <<63>>, <<46>>}
CellOK(c, tok) ==
    CASE c.t = "s" -> Strip(tok) = Strip(NormalizeBreaks(c.s))
      [] c.t = "n" -> c.ok /\ tok = c.s
      [] c.t = "x" -> c.ok
      [] c.t = "m" -> Strip(tok) \in Missing
      [] c.t = "i" -> TRUE
      [] OTHER -> FALSE

FirstBadCell(e, g) ==
    LET n == Min2(Len(e.vals), Len(g.vals))
        bad == { c \in 1..n : ~CellOK(e.vals[c], g.vals[c]) }
    IN IF bad # {} THEN MinOf(bad) ELSE IF Len(e.vals) # Len(g.vals) THEN n + 1 ELSE 0

(* <<clause, cell>>; clause "" = item is as supplied *)
ItemVerdict(e, g) ==
    IF e.k # g.k THEN <<"item_kind", 1>>
    ELSE IF e.tags # g.tags THEN <<"tags", 1>>
    ELSE IF Len(e.vals) # Len(g.vals) THEN <<"value_count", FirstBadCell(e, g)>>
    ELSE IF FirstBadCell(e, g) # 0 THEN <<"value", FirstBadCell(e, g)>>
    ELSE <<"", 0>>

(* <<clause, item, cell>> *)
BlockVerdict(eb, gb) ==
    LET n == Min2(Len(eb.items), Len(gb.items))
        bad == { j \in 1..n : ItemVerdict(eb.items[j], gb.items[j])[1] # "" }
    IN IF eb.name # gb.name THEN <<"block_name", 0, 0>>
       ELSE IF bad # {} THEN LET j == MinOf(bad)  v == ItemVerdict(eb.items[j], gb.items[j])
                             IN <<v[1], j, v[2]>>
       ELSE IF Len(eb.items) # Len(gb.items) THEN <<"item_count", n + 1, 1>>
       ELSE <<"", 0, 0>>

(* all <<k, token>> of the symbolic id cells; only meaningful when the shapes agree *)
IdPairs(exp, got) ==
    UNION { UNION { { <<exp[b].items[j].vals[c].s[1], got[b].items[j].vals[c]>> :
                        c \in { c \in 1..Len(exp[b].items[j].vals) : exp[b].items[j].vals[c].t = "i" } } :
                    j \in 1..Len(exp[b].items) } : b \in 1..Len(exp) }
IdsConsistent(exp, got) ==
    \A p, q \in IdPairs(exp, got) : (p[1] = q[1]) <=> (p[2] = q[2])

(* "every author-role id refers to exactly one author id", directly on a parsed block  *)
Column(b, tag) ==
    FlattenSeq([j \in 1..Len(b.items) |->
        LET it == b.items[j]
            ps == { q \in 1..Len(it.tags) : it.tags[q] = tag }
        IN IF ps = {} THEN <<>>
           ELSE LET q == MinOf(ps)  nt == Len(it.tags)
                IN [r \in 1..(Len(it.vals) \div nt) |-> it.vals[(r - 1) * nt + q]]])
RoleIdsResolve(b) ==
    LET ids == Column(b, Tg.contact_id) \o Column(b, Tg.author_id)
        roles == Column(b, Tg.role_id)
    IN \A r \in 1..Len(roles) : Cardinality({ i \in 1..Len(ids) : ids[i] = roles[r] }) = 1

(* <<clause, block, item, cell>>; <<"ok",0,0,0>> = the text is valid CIF 1.1 and reads   *)
(* back as the supplied document                                                        *)
DocVerdict(exp, rd) ==
    LET got == rd.blocks
        n == Min2(Len(exp), Len(got))
        bad == { b \in 1..n : BlockVerdict(exp[b], got[b])[1] # "" }
    IN IF bad # {} THEN LET b == MinOf(bad)  v == BlockVerdict(exp[b], got[b])
                        IN <<v[1], b, v[2], v[3]>>
       ELSE IF Len(exp) # Len(got) THEN <<"block_count", n + 1, 0, 0>>
       ELSE IF rd.le # "" \/ rd.pe # "" THEN <<"syntax", 0, 0, 0>>
       ELSE IF ~IdsConsistent(exp, got) THEN <<"author_and_role_ids_inconsistent", 0, 0, 0>>
       ELSE IF \E b \in 1..Len(got) : ~RoleIdsResolve(got[b])
            THEN <<"role_id_without_exactly_one_author_id", 0, 0, 0>>
       ELSE <<"ok", 0, 0, 0>>

(* the supplied content contains a string that CIF 1.1 cannot carry: refusing it with   *)
(* an exception is an accepted outcome (DESIGN 3.4)                                     *)
HasUnrepresentable(exp) ==
    \E b \in 1..Len(exp) : \E j \in 1..Len(exp[b].items) : \E c \in 1..Len(exp[b].items[j].vals) :
        LET cell == exp[b].items[j].vals[c] IN cell.t \in {"s", "x"} /\ HasLfSemi(NormalizeBreaks(cell.s))

-----------------------------------------------------------------------------
(* Content assembled by the high-level builder (module docstring of io/cif.py):         *)
(* dictionary-conformance loop, audit pairs (+ the reducer, or a loop of reducers),     *)
(* contact authors, other authors, author roles, then the added content in call order.  *)
(* A builder is [name, authors, reducers, content]; a person is                         *)
(* [name, email, address, orcid, role, corr]; the fields are cells as supplied by the     *)
(* caller, MCell for "not given" (None or empty); reducers and beamline strings likewise.*)
SCell(s) == [t |-> "s", s |-> s, ok |-> TRUE]
XCell    == [t |-> "x", s |-> <<>>, ok |-> TRUE]
MCell    == [t |-> "m", s |-> <<>>, ok |-> TRUE]
ICell(k) == [t |-> "i", s |-> <<k>>, ok |-> TRUE]
OptCell(s) == IF s = <<>> THEN MCell ELSE SCell(s)
Pair(tag, cell) == [k |-> "pair", tags |-> <<tag>>, vals |-> <<cell>>]

RECURSIVE Digits(_)
Digits(i) == IF i < 10 THEN <<48 + i>> ELSE Digits(i \div 10) \o <<48 + (i % 10)>>

B0(name) == [name |-> name, authors |-> <<>>, reducers |-> <<>>, content |-> <<>>]

(* columns of one author category: <<tag, cells>> for every field that any author has   *)
AuthorColumns(people, idx, tagName, tagEmail, tagAddress, tagOrcid, tagId) ==
    LET n == Len(people)
        col(tag, f(_)) == IF \E i \in 1..n : f(people[i]).t # "m"
                          THEN << <<tag, [i \in 1..n |-> f(people[i])]>> >> ELSE <<>>
        idcol == IF \E i \in 1..n : people[i].role.t # "m"
                 THEN << <<tagId, [i \in 1..n |-> ICell(idx[i])]>> >> ELSE <<>>
    IN col(tagName, LAMBDA p : p.name) \o col(tagEmail, LAMBDA p : p.email)
       \o col(tagAddress, LAMBDA p : p.address) \o col(tagOrcid, LAMBDA p : p.orcid) \o idcol

AuthorItems(people, idx, tagName, tagEmail, tagAddress, tagOrcid, tagId) ==
    LET cols == AuthorColumns(people, idx, tagName, tagEmail, tagAddress, tagOrcid, tagId)
        n == Len(people)  nc == Len(cols)
    IN IF n = 0 \/ nc = 0 THEN <<>>
       ELSE IF n = 1 THEN [q \in 1..nc |-> Pair(cols[q][1], cols[q][2][1])]
       ELSE << [k |-> "loop", tags |-> [q \in 1..nc |-> cols[q][1]],
                vals |-> [c \in 1..(n * nc) |-> cols[((c - 1) % nc) + 1][2][((c - 1) \div nc) + 1]]] >>

SaveItems(B) ==
    LET A == B.authors
        cIdx == SelectSeq([i \in 1..Len(A) |-> i], LAMBDA i : A[i].corr)
        rIdx == SelectSeq([i \in 1..Len(A) |-> i], LAMBDA i : ~A[i].corr)
        ordered == cIdx \o rIdx        \* contact authors first: position = symbolic id
        pos(i) == CHOOSE p \in 1..Len(ordered) : ordered[p] = i
        contact == [q \in 1..Len(cIdx) |-> A[cIdx[q]]]
        regular == [q \in 1..Len(rIdx) |-> A[rIdx[q]]]
        withRole == SelectSeq(ordered, LAMBDA i : A[i].role.t # "m")
        usesPd == \E j \in 1..Len(B.content) : B.content[j].pd
        nSchema == IF usesPd THEN 2 ELSE 1
        schema == << [k |-> "loop", tags |-> <<Tg.conform_name, Tg.conform_version, Tg.conform_location>>,
                      vals |-> [c \in 1..(3 * nSchema) |-> XCell]] >>
        audit == <<Pair(Tg.audit_date, XCell), Pair(Tg.audit_method, XCell)>>
                 \o (IF Len(B.reducers) = 1 THEN <<Pair(Tg.reduction, B.reducers[1])>> ELSE <<>>)
        reducers == IF Len(B.reducers) > 1
                    THEN << [k |-> "loop", tags |-> <<Tg.reduction>>,
                             vals |-> B.reducers] >>
                    ELSE <<>>
        roles == IF withRole = <<>> THEN <<>>
                 ELSE << [k |-> "loop", tags |-> <<Tg.role_id, Tg.role_role>>,
                          vals |-> [c \in 1..(2 * Len(withRole)) |->
                                      LET i == withRole[((c - 1) \div 2) + 1]
                                      IN IF c % 2 = 1 THEN ICell(pos(i)) ELSE A[i].role]] >>
    IN schema \o audit \o reducers
       \o AuthorItems(contact, [q \in 1..Len(cIdx) |-> pos(cIdx[q])], Tg.contact_name, Tg.contact_email,
                      Tg.contact_address, Tg.contact_orcid, Tg.contact_id)
       \o AuthorItems(regular, [q \in 1..Len(rIdx) |-> pos(rIdx[q])], Tg.author_name, Tg.author_email,
                      Tg.author_address, Tg.author_orcid, Tg.author_id)
       \o roles
       \o [j \in 1..Len(B.content) |-> [k |-> B.content[j].k, tags |-> B.content[j].tags,
                                         vals |-> B.content[j].vals]]

(* beamline chunk = consecutive pairs, stored as several content entries *)
BeamlineEntries(c) ==
    LET P(tag, cell) == [k |-> "pair", tags |-> <<tag>>, vals |-> <<cell>>, pd |-> FALSE]
        probe == CASE c.source = "synchrotron" -> <<P(Tg.probe, SCell(Wd.xray))>>
                   [] c.source \in {"spallation", "reactor"} -> <<P(Tg.probe, SCell(Wd.neutron))>>
                   [] OTHER -> <<>>
        device == CASE c.source = "synchrotron" -> <<P(Tg.device, SCell(Wd.synch))>>
                    [] c.source = "spallation" -> <<P(Tg.device, SCell(Wd.spallation))>>
                    [] c.source = "reactor" -> <<P(Tg.device, SCell(Wd.nuclear))>>
                    [] OTHER -> <<>>
    IN probe \o <<P(Tg.beamline, c.name)>>
       \o (IF c.hasfac THEN <<P(Tg.facility, c.facility)>> ELSE <<>>) \o device

(* reduced powder data: point id, coordinate (+ su), intensity (+ su); c.cells = the     *)
(* supplied numbers row by row without the point id                                     *)
DataEntry(c) ==
    LET ctag == IF c.coord = "tof" THEN Tg.tof ELSE Tg.dspacing
        ytag == CASE c.yname = "intensity_net" -> Tg.intensity_net
                  [] c.yname = "intensity_total" -> Tg.intensity_total
                  [] OTHER -> Tg.intensity_norm
        tags == <<Tg.point_id, ctag>> \o (IF c.cvar THEN <<ctag \o Wd.su>> ELSE <<>>)
                \o <<ytag>> \o (IF c.yvar THEN <<ytag \o Wd.su>> ELSE <<>>)
        nc == Len(tags)
    IN [k |-> "loop", tags |-> tags, pd |-> TRUE,
        vals |-> [q \in 1..(c.n * nc) |->
                    LET r == (q - 1) \div nc  p == (q - 1) % nc
                    IN IF p = 0 THEN SCell(Digits(r)) ELSE c.cells[r * (nc - 1) + p]]]

CalibEntry(c) ==
    [k |-> "loop", pd |-> TRUE,
     tags |-> <<Tg.calib_id, Tg.calib_power, Tg.calib_coeff>>
              \o (IF c.hasvar THEN <<Tg.calib_coeff \o Wd.su>> ELSE <<>>),
     vals |-> c.cells]

Apply(B, c) ==
    CASE c.op = "authors"  -> [B EXCEPT !.authors = @ \o c.people]
      [] c.op = "reducers" -> [B EXCEPT !.reducers = @ \o c.items]
      [] c.op = "beamline" -> [B EXCEPT !.content = @ \o BeamlineEntries(c)]
      [] c.op = "data"     -> [B EXCEPT !.content = Append(@, DataEntry(c))]
      [] c.op = "calib"    -> [B EXCEPT !.content = Append(@, CalibEntry(c))]
      [] c.op = "rename"   -> [B EXCEPT !.name = c.name]      \* the name setter of this builder (no other builder changes)
      [] OTHER -> B          \* copy

SaveDoc(name, calls) == LET B == FoldLeft(Apply, B0(name), calls) IN << [name |-> B.name, items |-> SaveItems(B)] >>

-----------------------------------------------------------------------------
(* The version identifier.  A CIF 1.1 file may start with the structured comment        *)
(* #\#CIF_1.1 ; a file that announces another version is not a CIF 1.1 file.             *)
MagicPrefix == <<HASH, BSL, HASH, 67, 73, 70, 95>>          \* #\#CIF_
MagicOK(text) ==
    HasPrefix(text, MagicPrefix) =>
      /\ Len(text) >= Len(MagicPrefix) + 3
      /\ SubSeq(text, Len(MagicPrefix) + 1, Len(MagicPrefix) + 3) = <<49, 46, 49>>      \* 1.1
      /\ (Len(text) = Len(MagicPrefix) + 3 \/ IsBlank(text[Len(MagicPrefix) + 4]) \/ text[Len(MagicPrefix) + 4] = CR)
=============================================================================
