------------------------- MODULE Growth_FileHandles -------------------------
(* Growth module: scippneutron.io._files.open_or_pass, the one place where the I/O code     *)
(* (save_cif, Sqw.open, SqwBuilder.create) decides WHOSE a file handle is.                  *)
(*     "Open a file at a path or return an already open file."                              *)
(* One target (a path, or a handle the caller opened: StringIO, BytesIO, a real text file,  *)
(* a real binary file) is used `MaxUses` times in a row; every use is the three steps of a  *)
(* `with open_or_pass(target, mode) as f:` statement - Enter, body steps (write one unit,   *)
(* read to the end, raise), Exit.  The state is the ownership picture:                      *)
(*   callerOpen - the handle the caller opened is still open ("na" for a path)              *)
(*   own        - the handle the library opened itself: "none" | "open" | "closed"          *)
(*   same       - the object handed to the body IS the caller's handle                      *)
(*   size, pos  - units stored in the file / buffer, position of the handle used            *)
EXTENDS Integers, Sequences, TLC

CONSTANTS Kinds,      \* subset of {"path", "stringio", "bytesio", "textfile", "binfile"}
          Modes,      \* subset of {"w", "r+", "r"}   (the binary twin is chosen by the kind)
          Sizes,      \* initial sizes of the file / buffer
          MaxUses, MaxBody,
          Bug         \* "none" | "close_callers" | "leak_on_raise" | "truncate_handle"

VARIABLES kind, mode, phase, callerOpen, own, same, size, pos, uses, body, raised, hist
vars == <<kind, mode, phase, callerOpen, own, same, size, pos, uses, body, raised, hist>>

Max(a, b) == IF a > b THEN a ELSE b
IsPath == kind = "path"
(* what an observer of the implementation can see after a step *)
Obs(a) == <<a, mode', callerOpen', own', same', size', pos'>>

Init == /\ kind \in Kinds /\ mode = (CHOOSE m \in Modes : TRUE) /\ size \in Sizes
        /\ phase = "idle"
        /\ callerOpen = IF kind = "path" THEN "na" ELSE "open"
        /\ own = "none" /\ same = FALSE
        /\ pos = IF kind = "path" THEN 0 ELSE size     \* the caller wrote `size` units before
        /\ uses = 0 /\ body = 0 /\ raised = FALSE
        /\ hist = << <<"init", ToString(size)>> >>

(* with open_or_pass(target, m) as f: *)
Enter(m) ==
    /\ phase = "idle" /\ uses < MaxUses
    /\ mode' = m
    /\ phase' = "inside" /\ body' = 0 /\ raised' = FALSE
    /\ IF IsPath
         THEN /\ own' = "open" /\ same' = FALSE /\ pos' = 0
              /\ size' = IF m = "w" THEN 0 ELSE size             \* open(path, 'w') truncates
              /\ UNCHANGED callerOpen
         ELSE /\ own' = "none" /\ same' = TRUE                    \* handed through as it is:
              /\ size' = IF Bug = "truncate_handle" /\ m = "w" THEN 0 ELSE size
              /\ pos' = IF Bug = "truncate_handle" /\ m = "w" THEN 0 ELSE pos
              /\ UNCHANGED callerOpen                             \* not reopened, not rewound
    /\ UNCHANGED <<kind, uses>>

Write == /\ phase = "inside" /\ ~raised /\ body < MaxBody /\ mode # "r"
         /\ size' = Max(size, pos + 1) /\ pos' = pos + 1
         /\ body' = body + 1
         /\ UNCHANGED <<kind, mode, phase, callerOpen, own, same, uses, raised>>

ReadAll == /\ phase = "inside" /\ ~raised /\ body < MaxBody /\ mode # "w"
           /\ pos' = Max(pos, size)
           /\ body' = body + 1
           /\ UNCHANGED <<kind, mode, phase, callerOpen, own, same, size, uses, raised>>

Raise == /\ phase = "inside" /\ ~raised
         /\ raised' = TRUE
         /\ UNCHANGED <<kind, mode, phase, callerOpen, own, same, size, pos, uses, body>>

(* leaving the with block, normally or with the exception propagating *)
Exit == /\ phase = "inside"
        /\ phase' = "idle" /\ uses' = uses + 1
        /\ own' = IF own = "open"
                    THEN (IF Bug = "leak_on_raise" /\ raised THEN "open" ELSE "closed")
                    ELSE own
        /\ callerOpen' = IF Bug = "close_callers" /\ callerOpen = "open" THEN "closed" ELSE callerOpen
        /\ same' = FALSE
        /\ UNCHANGED <<kind, mode, size, pos, body, raised>>

Logged(A, a) == A /\ hist' = Append(hist, Obs(a))
Next == \/ \E m \in Modes : Logged(Enter(m), "enter")
        \/ Logged(Write, "write") \/ Logged(ReadAll, "read")
        \/ Logged(Raise, "raise") \/ Logged(Exit, "exit")
Spec == Init /\ [][Next]_vars

-----------------------------------------------------------------------------
(* a handle the caller opened is the caller's to close *)
NeverClosesCallers == [][callerOpen = "open" => callerOpen' = "open"]_vars
CallersStaysOpen == kind # "path" => callerOpen = "open"
(* what the library opened it closes, whether the body returned or raised *)
NoLeak == phase = "idle" => own # "open"
(* the body works on the caller's own object, never on a copy or a reopened file *)
Identity == phase = "inside" => (same <=> ~IsPath) /\ (IsPath <=> own = "open")
(* nothing is opened for a handle *)
NothingOpenedForHandles == ~IsPath => own = "none"
(* entering does not move or truncate a handle: successive uses append *)
EnterKeepsHandle == [][(phase = "idle" /\ phase' = "inside" /\ ~IsPath) => (size' = size /\ pos' = pos)]_vars
(* leaving changes neither content nor position *)
ExitKeepsContent == [][(phase = "inside" /\ phase' = "idle") => (size' = size /\ pos' = pos)]_vars
(* a path opened for writing starts empty, otherwise it keeps what it had *)
PathTruncation == [][(phase = "idle" /\ phase' = "inside" /\ IsPath) =>
                        (pos' = 0 /\ size' = IF mode' = "w" THEN 0 ELSE size)]_vars
TypeOK == /\ own \in {"none", "open", "closed"} /\ callerOpen \in {"na", "open", "closed"}
          /\ size >= 0 /\ pos >= 0 /\ pos <= size + MaxBody

(* export every finished session for the replay into the implementation *)
Emit == (phase = "idle" /\ uses = MaxUses) => PrintT(<<"SESSION", kind, hist>>)
=============================================================================
